"""E3: C front-end facts from clang's typed, macro-expanded JSON AST (nothing is compiled to
code or run).  Produces per translation unit: enums, global variables, struct fields, function
prototypes and, per function body, a structured mini-IR of expression tuples:
  ('var', name, kind) ('enum', name, value) ('int', v) ('member', base, field) ('bin', op, a, b)
  ('un', op, a) ('call', callee, args) ('cast', e, type, from_type) ('index', base, i)
  ('cond', c, a, b) ('sizeof', type) ('str', s) ('init', [..]) ('other', kind)
statements:
  ('assign', op, lhs, rhs, line) ('decl', name, type, init, line) ('expr', e, line)
  ('return', e, line) ('if', cond, then[], else[], line) ('loop', kind, cond, body[], line, init[], inc[])
"""
import gzip
import hashlib
import json
import os
import subprocess
import sys

VERIF = os.path.dirname(os.path.dirname(os.path.dirname(os.path.abspath(__file__))))
REPO = os.environ.get("VERIF_REPO", "/repo")
sys.path.insert(0, os.path.join(VERIF, "engines"))
import extract  # noqa: E402


class TU:
    def __init__(self, path, defines=(), lang=None, extra_args=(), filt=None):
        self.path = path
        self.enums = {}       # name -> int
        self.globals = []     # dict(name, type, storage, const, line, init?)
        self.structs = {}     # name -> [(field, type)]
        self.typedefs = {}
        self.funcs = {}       # name -> dict(params, ret, body, line, storage, inline)
        self.protos = {}      # name -> dict(params=[(name,type)], ret, line)
        self._line = 0
        self._file = None
        self._load(path, defines, lang, extra_args, filt)

    def _load(self, path, defines, lang, extra_args, filt):
        key = hashlib.sha256((extract.key() + path + repr(defines) + repr(extra_args) + repr(filt)).encode()).hexdigest()[:20]
        cdir = os.path.join(extract.cache_dir(), "cast")
        os.makedirs(cdir, exist_ok=True)
        cf = os.path.join(cdir, key + ".json.gz")
        if not os.path.exists(cf):
            cmd = ["clang", "-fsyntax-only", "-Xclang", "-ast-dump=json", "-I", os.path.join(REPO, "c"), "-Wno-everything"]
            if filt:
                cmd += ["-Xclang", "-ast-dump-filter=" + filt]
            cmd += ["-D" + d for d in defines] + list(extra_args)
            if lang:
                cmd += ["-x", lang]
            cmd.append(os.path.join(REPO, path))
            r = subprocess.run(cmd, capture_output=True, text=True)
            if r.returncode != 0 or not r.stdout.strip():
                raise SystemExit("EXTRACTION-FAILED clang AST of %s: %s" % (path, r.stderr[-1500:]))
            with gzip.open(cf + ".tmp", "wt", compresslevel=3) as fh:        # the JSON AST of a TU with <intrin.h> is > 100 MB
                fh.write(r.stdout)
            os.rename(cf + ".tmp", cf)
        with gzip.open(cf, "rt") as fh:
            txt = fh.read()
        if filt:
            # with a filter clang prints "Dumping <name>:" lines followed by one JSON object each
            objs = []
            dec = json.JSONDecoder()
            i = 0
            while True:
                j = txt.find("{", i)
                if j < 0:
                    break
                o, n = dec.raw_decode(txt[j:])
                objs.append(o)
                i = j + n
            root = {"kind": "TranslationUnitDecl", "inner": objs}
        else:
            root = json.loads(txt)
        self.main_file = os.path.join(REPO, path)
        for n in root.get("inner", []):
            self._top(n)
        try:
            sys.path.insert(0, os.path.join(os.path.dirname(os.path.dirname(os.path.abspath(__file__))), "rules"))
            import inliner
            self.inlined = inline_new_c_helpers(self, inliner.baseline().get("c:" + path))
        except ImportError:
            self.inlined = []

    # ---- locations
    def _loc(self, n):
        for k in ("loc", "range"):
            l = n.get(k)
            if not l:
                continue
            b = l.get("begin", l) if k == "range" else l
            for cand in (b.get("expansionLoc"), b.get("spellingLoc"), b):
                if cand and "line" in cand:
                    self._line = cand["line"]
                    if "file" in cand:
                        self._file = cand["file"]
                    break
                if cand and "file" in cand:
                    self._file = cand["file"]
        return self._line

    def _top(self, n):
        k = n.get("kind")
        self._loc(n)
        if k == "EnumDecl":
            for c in n.get("inner", []):
                if c.get("kind") == "EnumConstantDecl":
                    v = self._const_value(c)
                    if v is not None:
                        self.enums[c["name"]] = v
        elif k == "VarDecl":
            ty = n["type"]["qualType"]
            g = dict(name=n["name"], type=ty, storage=n.get("storageClass", ""), const=("const" in ty.split("[")[0].split("*")[-1]) or ty.startswith("const "),
                     line=self._line, file=self._file, has_init="init" in n)
            if n.get("inner"):
                g["init"] = self._expr(n["inner"][-1])
            self.globals.append(g)
        elif k == "RecordDecl" or k == "CXXRecordDecl":
            fields = [(c.get("name", ""), c["type"]["qualType"]) for c in n.get("inner", []) if c.get("kind") == "FieldDecl"]
            if fields:
                self.structs[n.get("name", "anon@%d" % self._line)] = fields
                self._last_record = fields
        elif k == "TypedefDecl":
            self.typedefs[n["name"]] = n["type"]["qualType"]
            if getattr(self, "_last_record", None) is not None and n["type"]["qualType"].startswith("struct"):
                self.structs.setdefault(n["name"], self._last_record)
        elif k == "FunctionDecl" or k == "CXXMethodDecl":
            params = [(c.get("name", ""), c["type"]["qualType"]) for c in n.get("inner", []) if c.get("kind") == "ParmVarDecl"]
            qt = n["type"]["qualType"]
            ret = qt.split("(")[0].strip()
            body = [c for c in n.get("inner", []) if c.get("kind") == "CompoundStmt"]
            d = dict(name=n["name"], params=params, ret=ret, line=self._line, file=self._file, storage=n.get("storageClass", ""), inline=n.get("inline", False))
            self.protos.setdefault(n["name"], d)
            if body:
                d["body"] = self._block(body[0])
                self.funcs[n["name"]] = d
        elif k in ("LinkageSpecDecl", "NamespaceDecl"):
            for c in n.get("inner", []):
                self._top(c)

    def _const_value(self, n):
        for c in n.get("inner", []):
            if "value" in c and c.get("kind") in ("ConstantExpr", "IntegerLiteral"):
                try:
                    return int(c["value"])
                except ValueError:
                    return None
            v = self._const_value(c)
            if v is not None:
                return v
        return None

    # ---- expressions
    def _expr(self, n):
        k = n.get("kind")
        inner = n.get("inner", [])
        if k in ("ImplicitCastExpr", "ParenExpr", "ConstantExpr", "ExprWithCleanups", "MaterializeTemporaryExpr", "CXXBindTemporaryExpr", "CXXFunctionalCastExpr") and inner:
            if k == "ConstantExpr" and "value" in n:
                try:
                    return ("int", int(n["value"]))
                except ValueError:
                    pass
            return self._expr(inner[-1])
        if k in ("CStyleCastExpr", "CXXStaticCastExpr", "CXXReinterpretCastExpr"):
            src = inner[-1].get("type", {}).get("qualType", "") if inner else ""
            return ("cast", self._expr(inner[-1]), n["type"]["qualType"], src)
        if k == "IntegerLiteral":
            return ("int", int(n["value"]))
        if k == "CXXBoolLiteralExpr":
            return ("int", 1 if n.get("value") else 0)
        if k == "CharacterLiteral":
            return ("int", int(n["value"]))
        if k == "StringLiteral":
            return ("str", n.get("value", ""))
        if k == "DeclRefExpr":
            rd = n.get("referencedDecl", {})
            name = rd.get("name", "?")
            rk = rd.get("kind")
            if rk == "EnumConstantDecl":
                return ("enum", name, self.enums.get(name))
            return ("var", name, {"ParmVarDecl": "param", "VarDecl": "var", "FunctionDecl": "fn"}.get(rk, rk))
        if k == "MemberExpr":
            return ("member", self._expr(inner[0]), n.get("name", "?"))
        if k == "ArraySubscriptExpr":
            return ("index", self._expr(inner[0]), self._expr(inner[1]))
        if k in ("BinaryOperator", "CompoundAssignOperator"):
            return ("bin", n["opcode"], self._expr(inner[0]), self._expr(inner[1]))
        if k == "UnaryOperator":
            return ("un", n["opcode"], self._expr(inner[0]))
        if k == "ConditionalOperator":
            return ("cond", self._expr(inner[0]), self._expr(inner[1]), self._expr(inner[2]))
        if k in ("CallExpr", "CXXMemberCallExpr", "CXXOperatorCallExpr"):
            callee = self._expr(inner[0])
            name = callee[1] if callee[0] == "var" else callee
            return ("call", name, tuple(self._expr(a) for a in inner[1:]))
        if k == "UnaryExprOrTypeTraitExpr":
            return ("sizeof", n.get("argType", {}).get("qualType", inner[0].get("type", {}).get("qualType", "?") if inner else "?"))
        if k == "InitListExpr":
            return ("init", tuple(self._expr(a) for a in inner))
        if k == "LambdaExpr":
            caps, body = [], []
            for c in inner:
                if c.get("kind") == "CXXRecordDecl":
                    for m in c.get("inner", []):
                        if m.get("kind") == "FieldDecl":
                            caps.append(m["type"]["qualType"])
                        if m.get("kind") == "CXXMethodDecl" and m.get("name") == "operator()":
                            for b in m.get("inner", []):
                                if b.get("kind") == "CompoundStmt":
                                    body = self._block(b)
                if c.get("kind") == "CompoundStmt" and not body:
                    body = self._block(c)
            return ("lambda", tuple(caps), tuple(body))
        if k == "CompoundLiteralExpr" and inner:
            return self._expr(inner[0])
        if k == "StmtExpr" and inner and inner[0].get("kind") == "CompoundStmt":
            # GNU statement expression ({ ...; value; }) -- the macro form of intrinsics with immediates
            return ("stmtexpr", tuple(self._block(inner[0])))
        if k == "ShuffleVectorExpr":
            return ("shufflevector", tuple(self._expr(a) for a in inner))
        return ("other", k)

    # ---- statements
    def _block(self, n):
        out = []
        for c in n.get("inner", []):
            out.extend(self._stmt(c))
        return out

    def _stmt(self, n):
        k = n.get("kind")
        line = self._loc(n)
        inner = n.get("inner", [])
        if k == "CompoundStmt":
            return self._block(n)
        if k == "DeclStmt":
            out = []
            for d in inner:
                if d.get("kind") == "VarDecl":
                    self._loc(d)
                    init = self._expr(d["inner"][-1]) if d.get("inner") and "init" in d else None
                    out.append(("decl", d["name"], d["type"]["qualType"], init, self._line))
            return out
        if k == "ReturnStmt":
            return [("return", self._expr(inner[0]) if inner else None, line)]
        if k == "IfStmt":
            cond = self._expr(inner[0])
            then = self._stmt(inner[1]) if len(inner) > 1 else []
            els = self._stmt(inner[2]) if len(inner) > 2 else []
            return [("if", cond, then, els, line)]
        if k == "WhileStmt":
            return [("loop", "while", self._expr(inner[0]), self._stmt(inner[1]), line, [], [])]
        if k == "DoStmt":
            return [("loop", "do", self._expr(inner[1]), self._stmt(inner[0]), line, [], [])]
        if k == "ForStmt":
            parts = inner + [{}] * (5 - len(inner))
            init = self._stmt(parts[0]) if parts[0] else []
            cond = self._expr(parts[2]) if parts[2] else None
            inc = [("expr", self._expr(parts[3]), line)] if parts[3] else []
            body = self._stmt(parts[4]) if parts[4] else []
            return [("loop", "for", cond, body, line, init, inc)]
        if k in ("BinaryOperator", "CompoundAssignOperator") and n.get("opcode", "").endswith("=") and n["opcode"] not in ("==", "!=", "<=", ">="):
            return [("assign", n["opcode"], self._expr(inner[0]), self._expr(inner[1]), line)]
        if k == "UnaryOperator" and n.get("opcode") in ("++", "--"):
            return [("assign", "+=" if n["opcode"] == "++" else "-=", self._expr(inner[0]), ("int", 1), line)]
        if k in ("NullStmt", "BreakStmt", "ContinueStmt"):
            return [(k.lower()[:-4], line)]
        if k in ("GCCAsmStmt",):
            # clang's JSON carries the operand expressions but neither the template nor the constraints: keep the source text of
            # exactly this statement (its AST range) so that a rule can read them; ("asm", text, operand exprs, line)
            text = None
            try:
                r = n.get("range", {})
                b, e = r.get("begin", {}), r.get("end", {})
                b = b.get("expansionLoc", b)
                e = e.get("expansionLoc", e)
                if "offset" in b and "offset" in e and not b.get("file") and not e.get("file"):
                    if not hasattr(self, "_src"):
                        self._src = open(self.main_file, "rb").read()
                    text = self._src[b["offset"]:e["offset"] + e.get("tokLen", 1)].decode("utf-8", "replace")
            except (OSError, KeyError):
                text = None
            return [("asm", text, tuple(self._expr(c) for c in inner), line)]
        if not k:
            return []
        return [("expr", self._expr(n), line)]


# ---- generic walkers over the mini-IR
def walk_stmts(stmts, guards=()):
    """yield (stmt, guards) for every statement, with the enclosing if-conditions as guards
    [(cond expr, polarity)]; loops contribute their condition as a (cond, True) guard"""
    for s in stmts:
        yield s, guards
        if s[0] == "if":
            yield from walk_stmts(s[2], guards + ((s[1], True),))
            yield from walk_stmts(s[3], guards + ((s[1], False),))
        elif s[0] == "loop":
            yield from walk_stmts(s[5], guards)
            yield from walk_stmts(s[3], guards + (((s[2], True),) if s[2] is not None else ()))
            yield from walk_stmts(s[6], guards)


def walk_expr(e, f):
    if isinstance(e, tuple) and e:
        if isinstance(e[0], str):
            f(e)
        for x in e:
            if isinstance(x, tuple):
                walk_expr(x, f)


def calls_in(stmts):
    """[(call expr, guards, line)] in source order"""
    out = []
    for s, g in walk_stmts(stmts):
        exprs = []
        if s[0] == "assign":
            exprs = [s[2], s[3]]
        elif s[0] == "decl":
            exprs = [s[3]]
        elif s[0] in ("expr", "return"):
            exprs = [s[1]]
        elif s[0] == "if":
            exprs = [s[1]]
        elif s[0] == "loop":
            exprs = [s[2]]
        line = s[-1] if s[0] not in ("loop",) else s[4]
        if s[0] == "if":
            line = s[4]
        for e in exprs:
            if e is None:
                continue
            walk_expr(e, lambda x: out.append((x, g, line)) if x[0] == "call" else None)
    return out


def cshow(e, d=0):
    if not isinstance(e, tuple) or d > 8:
        return str(e)
    k = e[0]
    if k == "var":
        return e[1]
    if k == "enum":
        return e[1]
    if k == "int":
        return str(e[1])
    if k == "member":
        return "%s.%s" % (cshow(e[1], d + 1), e[2])
    if k == "bin":
        return "(%s %s %s)" % (cshow(e[2], d + 1), e[1], cshow(e[3], d + 1))
    if k == "un":
        return "%s%s" % (e[1], cshow(e[2], d + 1))
    if k == "call":
        return "%s(%s)" % (cshow(e[1], d + 1) if isinstance(e[1], tuple) else e[1], ", ".join(cshow(a, d + 1) for a in e[2]))
    if k == "cast":
        return "(%s)%s" % (e[2], cshow(e[1], d + 1))
    if k == "index":
        return "%s[%s]" % (cshow(e[1], d + 1), cshow(e[2], d + 1))
    if k == "cond":
        return "(%s ? %s : %s)" % (cshow(e[1], d + 1), cshow(e[2], d + 1), cshow(e[3], d + 1))
    return str(e)[:60]


# ---------------------------------------------------------------------------------------------------------------------
# inlining of helper functions that are new relative to the inventory the rules were written against (see rules/inliner.py)
def _c_subst(x, env):
    if isinstance(x, list):
        return [_c_subst(y, env) for y in x]
    if isinstance(x, tuple):
        if len(x) >= 2 and x[0] == "var" and x[1] in env:
            return env[x[1]]
        if x and x[0] == "decl" and x[1] in env and isinstance(env[x[1]], tuple) and env[x[1]][0] == "var":
            return ("decl", env[x[1]][1]) + tuple(_c_subst(y, env) for y in x[2:])
        return tuple(_c_subst(y, env) for y in x)
    return x


def _c_assigned(stmts, out):
    for s in stmts:
        if isinstance(s, tuple):
            if s and s[0] == "assign" and isinstance(s[2], tuple) and s[2][0] == "var":
                out.add(s[2][1])
            for y in s:
                if isinstance(y, list):
                    _c_assigned(y, out)


def _c_decls(stmts, out):
    for s in stmts:
        if isinstance(s, tuple):
            if s and s[0] == "decl":
                out.add(s[1])
            for y in s:
                if isinstance(y, list):
                    _c_decls(y, out)


def _c_has_inner_return(stmts, top=True):
    for i, s in enumerate(stmts):
        if isinstance(s, tuple):
            if s and s[0] == "return" and not (top and i == len(stmts) - 1):
                return True
            for y in s:
                if isinstance(y, list) and _c_has_inner_return(y, False):
                    return True
    return False


def _c_calls(x, name):
    if isinstance(x, (list, tuple)):
        if isinstance(x, tuple) and len(x) >= 2 and x[0] == "call" and x[1] == name:
            return True
        return any(_c_calls(y, name) for y in x)
    return False


class _CInliner:
    def __init__(self, funcs, new):
        self.funcs, self.new, self.k = funcs, new, 0
        self.cur_names = set()

    def bind(self, callee, args, line):
        """(prologue statements, substitution env) for one call"""
        self.k += 1
        assigned, decls = set(), set()
        _c_assigned(callee["body"], assigned)
        _c_decls(callee["body"], decls)
        env, pro = {}, []
        for (pn, pty), a in zip(callee["params"], args):
            if pn in assigned or not isinstance(a, tuple) or _c_calls(a, None) or any(_c_calls(a, n) for n in self.funcs):
                nv = "%s__inl%d" % (pn, self.k)
                pro.append(("decl", nv, pty, a, line))
                env[pn] = ("var", nv, "var")
            elif a[0] in ("var", "int", "enum", "member", "un", "index", "cast", "bin"):
                env[pn] = a
            else:
                nv = "%s__inl%d" % (pn, self.k)
                pro.append(("decl", nv, pty, a, line))
                env[pn] = ("var", nv, "var")
        for d in decls:
            if d in self.cur_names:          # rename a helper local only when the caller already uses the name
                env[d] = ("var", "%s__inl%d" % (d, self.k), "var")
            else:
                self.cur_names.add(d)
        return pro, env

    def expr(self, e):
        """expression-valued helpers whose body is a single `return <expr>;`"""
        if isinstance(e, tuple):
            e = tuple(self.expr(y) if isinstance(y, (tuple, list)) else y for y in e)
            if len(e) == 3 and e[0] == "call" and e[1] in self.new:
                c = self.funcs[e[1]]
                b = c["body"]
                # `return <expr>;` possibly preceded by single-assignment local constants (`const int m = A | B; return (x & m) == m;`)
                if b and b[-1][0] == "return" and b[-1][1] is not None and len(c["params"]) == len(e[2]) \
                        and all(x[0] == "decl" and x[3] is not None for x in b[:-1]):
                    assigned = set()
                    _c_assigned(b, assigned)
                    if not assigned and all(isinstance(a, tuple) for a in e[2]):
                        env = {pn: a for (pn, _), a in zip(c["params"], e[2])}
                        for d in b[:-1]:
                            env[d[1]] = _c_subst(d[3], env)
                        return self.expr(_c_subst(b[-1][1], env))
            return e
        if isinstance(e, list):
            return self.stmts(e)
        return e

    def stmts(self, ss):
        out = []
        for s in ss:
            if isinstance(s, tuple) and s and s[0] == "expr" and isinstance(s[1], tuple) and s[1][0] == "call" and s[1][1] in self.new:
                c = self.funcs[s[1][1]]
                if len(c["params"]) == len(s[1][2]) and not _c_has_inner_return(c["body"]):
                    pro, env = self.bind(c, [self.expr(a) for a in s[1][2]], s[-1])
                    body = [x for x in c["body"] if not (x[0] == "return" and (len(x) < 2 or x[1] is None or True))]
                    out.extend(pro)
                    out.extend(self.stmts(_c_subst(body, env)))
                    continue
            if isinstance(s, tuple):
                out.append(tuple(self.expr(y) if isinstance(y, tuple) else (self.stmts(y) if isinstance(y, list) else y) for y in s))
            else:
                out.append(s)
        return out


def inline_new_c_helpers(tu, baseline_names):
    """inline (statement-level / single-return expression-level) every function of `tu` that is not in `baseline_names`"""
    if not baseline_names:
        return []
    new = {n for n, f in tu.funcs.items() if n not in baseline_names and f.get("body") is not None and not n.startswith("_") and f.get("storage") == "static"
           and not _c_calls(f["body"], n) and str(f.get("file") or "").endswith(tu.path.split("/")[-1].replace(".c", "")) is not None}
    new = {n for n in new if (tu.funcs[n].get("file") or "").find("/usr/") < 0 and (tu.funcs[n].get("file") or "").find("lib/clang") < 0}
    if not new:
        return []
    inl = _CInliner(tu.funcs, new)
    for _ in range(3):
        for n, f in tu.funcs.items():
            if f.get("body") is not None:
                names = set(pn for pn, _ in f["params"])
                _c_decls(f["body"], names)
                inl.cur_names = names
                f["body"] = inl.stmts(f["body"])
    gone = [n for n in new if not any(_c_calls(f.get("body") or [], n) for m, f in tu.funcs.items() if m != n)]
    for n in gone:
        del tu.funcs[n]
    return sorted(new)
