#!/usr/bin/env python3
"""Fact extraction orchestration (engine E1 front door, plus cache shared by all engines).

Every fact file is keyed by the sha256 of /repo's current source files, so a check always
analyses the tree as it is *now*; the cache only avoids re-running rustc 18 times for the
same tree state.  Nothing of /repo is executed (build.rs runs, as in any cargo check).
"""
import fcntl
import hashlib
import json
import os
import shutil
import subprocess
import sys
import tempfile
import time

VERIF = os.path.dirname(os.path.dirname(os.path.abspath(__file__)))
REPO = os.environ.get("VERIF_REPO", "/repo")
CACHE = os.path.join(VERIF, ".cache")
DRIVER = os.path.join(VERIF, "engines/mirfacts/target/release/mirfacts")

# MIR as built (no optimisation), without the compiler-inserted pointer-alignment checks
# (-Zub-checks=no): those are target-dependent instrumentation, not program logic.
RUSTFLAGS = "-Zmir-opt-level=0 -Zub-checks=no -Awarnings"
FULL = "rayon,mmap,zeroize,serde,traits-preview"
# id -> dict(dir, crate, args, scratch)
CONFIGS = {
    "asm-full": dict(dir=".", crate="blake3", args=["--features", FULL]),
    "asm-default": dict(dir=".", crate="blake3", args=[]),
    "asm-nostd": dict(dir=".", crate="blake3", args=["--no-default-features"]),
    "pure-full": dict(dir=".", crate="blake3", args=["--features", FULL + ",pure"]),
    "intr-full": dict(dir=".", crate="blake3", args=["--features", FULL + ",prefer_intrinsics"]),
    "no512": dict(dir=".", crate="blake3", args=["--features", "no_avx512"]),
    "no2": dict(dir=".", crate="blake3", args=["--features", "no_avx512,no_avx2"]),
    "no41": dict(dir=".", crate="blake3", args=["--features", "no_avx512,no_avx2,no_sse41"]),
    "no2x": dict(dir=".", crate="blake3", args=["--features", "no_avx512,no_avx2,no_sse41,no_sse2"]),
    "portable1": dict(dir=".", crate="blake3",
                      args=["--target", "riscv64gc-unknown-none-elf", "-Zbuild-std=core,alloc",
                            "--no-default-features"]),
    # aarch64, no_std: the NEON flavour (src/ffi_neon.rs + platform dispatch).  build.rs compiles c/blake3_neon.c with clang
    # for the aarch64 target against the x86 glibc headers plus one stub (syntax/codegen only, nothing is linked or run)
    "neon1": dict(dir=".", crate="blake3",
                  args=["--target", "aarch64-unknown-none", "-Zbuild-std=core,alloc", "--no-default-features"],
                  env={"CC": "clang", "CFLAGS": "--target=aarch64-linux-gnu -isystem %s -isystem /usr/include/x86_64-linux-gnu"
                       % os.path.join(VERIF, "engines/cfront/stubs/aarch64")}),
    # 32-bit usize, no_std: the portable flavour on a 32-bit bare target, and the 32-bit x86 flavour (Rust intrinsics for
    # SSE2/SSE4.1/AVX2, C intrinsics for AVX-512 compiled by build.rs with clang for i686 against the stub headers)
    "portable32": dict(dir=".", crate="blake3", ptr=32,
                       args=["--target", "riscv32imac-unknown-none-elf", "-Zbuild-std=core,alloc", "--no-default-features"]),
    "x86-32": dict(dir=".", crate="blake3", ptr=32,
                   args=["--target", "i686-unknown-linux-gnu", "-Zbuild-std=core,alloc", "--no-default-features"],
                   env={"CC": "clang", "CFLAGS": "--target=i686-linux-gnu -isystem %s -isystem /usr/include/x86_64-linux-gnu"
                        % os.path.join(VERIF, "engines/cfront/stubs/i686")}),
    "refimpl": dict(dir="reference_impl", crate="reference_impl", args=[]),
    "testvec": dict(dir="test_vectors", crate="test_vectors", args=["--lib"]),
    "b3sum": dict(dir="b3sum", crate="b3sum", args=[], scratch=True),
}
QUICK = ["asm-full", "pure-full", "portable1"]
ALL_BLAKE3 = ["asm-full", "asm-default", "asm-nostd", "pure-full", "intr-full", "no512", "no2", "no41",
              "no2x", "portable1", "neon1", "portable32", "x86-32"]
NO_STD = ("portable1", "asm-nostd", "neon1", "portable32", "x86-32")

SKIP_DIRS = {".git", "target", "media", "benches", "tools", ".github"}


def tree_key():
    """sha256 over every source file of /repo (paths + contents), skipping build output."""
    h = hashlib.sha256()
    for root, dirs, files in os.walk(REPO):
        dirs[:] = sorted(d for d in dirs if d not in SKIP_DIRS)
        for f in sorted(files):
            if f == "Cargo.lock" and root != REPO:
                continue  # cargo may (re)create these; dependency versions are not analysed
            p = os.path.join(root, f)
            rel = os.path.relpath(p, REPO)
            try:
                with open(p, "rb") as fh:
                    data = fh.read()
            except OSError:
                continue
            h.update(rel.encode() + b"\0" + hashlib.sha256(data).digest())
    for extra in (DRIVER,):
        if os.path.exists(extra):
            with open(extra, "rb") as fh:
                h.update(hashlib.sha256(fh.read()).digest())
    h.update(RUSTFLAGS.encode())
    return h.hexdigest()[:24]


_KEY = None


def key():
    global _KEY
    if _KEY is None:
        _KEY = tree_key()
    return _KEY


_PRUNED = False


def cache_dir():
    global _PRUNED
    d = os.path.join(CACHE, "facts", key())
    os.makedirs(d, exist_ok=True)
    if not _PRUNED:
        _PRUNED = True
        try:
            os.utime(d, None)        # most recently used: survives the pruning of concurrent runs
            prune_cache(keep=24)
        except OSError:
            pass
    return d


def prune_cache(keep=6):
    base = os.path.join(CACHE, "facts")
    if not os.path.isdir(base):
        return
    ents = sorted((os.path.getmtime(os.path.join(base, e)), e) for e in os.listdir(base))
    for _, e in ents[:-keep]:
        shutil.rmtree(os.path.join(base, e), ignore_errors=True)


def nightly_lib():
    out = subprocess.run(["rustc", "+nightly", "--print", "sysroot"], capture_output=True, text=True, check=True)
    return os.path.join(out.stdout.strip(), "lib")


def _make_scratch(tmp, b3sum=False):
    """Scratch copy of /repo's sources (never /repo itself: cargo would drop Cargo.lock files
    there).  For b3sum, additionally apply the two documented edits to b3sum/Cargo.toml (wild ->
    path shim; clap's wrap_help and the dev-deps dropped).  No .rs file is touched."""
    dst = os.path.join(tmp, "repo")
    os.makedirs(dst)
    for item in ("src", "c", "build.rs", "Cargo.toml", "Cargo.lock", "reference_impl", "test_vectors"):
        s = os.path.join(REPO, item)
        if os.path.isdir(s):
            shutil.copytree(s, os.path.join(dst, item), ignore=shutil.ignore_patterns("target"))
        elif os.path.exists(s):
            shutil.copy(s, os.path.join(dst, item))
    if not b3sum:
        return dst
    os.makedirs(os.path.join(dst, "b3sum"))
    shutil.copytree(os.path.join(REPO, "b3sum/src"), os.path.join(dst, "b3sum/src"))
    toml = open(os.path.join(REPO, "b3sum/Cargo.toml")).read()
    out = []
    skipping = False
    for line in toml.splitlines():
        if line.strip().startswith("[dev-dependencies]"):
            skipping = True
            continue
        if skipping and line.strip().startswith("["):
            skipping = False
        if skipping:
            continue
        if line.startswith("clap"):
            line = line.replace(', "wrap_help"', "").replace('"wrap_help", ', "").replace('"wrap_help"', "")
        if line.startswith("wild"):
            line = 'wild = { path = "%s" }' % os.path.join(VERIF, "shims/wild")
        out.append(line)
    open(os.path.join(dst, "b3sum/Cargo.toml"), "w").write("\n".join(out) + "\n")
    # b3sum/Cargo.lock pins versions that are not all in the offline cache (cc 1.4.0); cargo
    # re-resolves offline against the cached set instead.  Versions of *dependencies* do not
    # affect any rule: only b3sum's own MIR is analysed.
    return dst


def extract(cfg, force=False, quiet=True):
    """Return the path of the fact file for configuration `cfg` of the current tree."""
    spec = CONFIGS[cfg]
    out = os.path.join(cache_dir(), cfg + ".json")
    if os.path.exists(out) and not force:
        return out
    if not os.path.exists(DRIVER):
        raise SystemExit("mirfacts driver not built: run MANIFEST.setup_cmd (make -C /verif setup)")
    os.makedirs(os.path.join(CACHE, "locks"), exist_ok=True)
    lockf = open(os.path.join(CACHE, "locks", cfg + ".lock"), "w")
    fcntl.flock(lockf, fcntl.LOCK_EX)
    try:
        if os.path.exists(out) and not force:
            return out
        t0 = time.time()
        tgt = os.path.join(CACHE, "targets", cfg)
        os.makedirs(tgt, exist_ok=True)
        # cargo's freshness cache would skip the wrapper: drop the member's fingerprints
        for root, dirs, _ in os.walk(tgt):
            if os.path.basename(root) == ".fingerprint":
                for d in dirs:
                    if d.startswith(spec["crate"] + "-") or d.startswith(spec["crate"].replace("_", "-") + "-"):
                        shutil.rmtree(os.path.join(root, d), ignore_errors=True)
        # fixed scratch path per (cache, config): keeps cargo's path-based package ids stable
        tmp = os.path.join(tempfile.gettempdir(),
                           "verif_x_%s_%s" % (hashlib.sha256(CACHE.encode()).hexdigest()[:8], cfg))
        shutil.rmtree(tmp, ignore_errors=True)
        os.makedirs(tmp)
        try:
            base = _make_scratch(tmp, b3sum=bool(spec.get("scratch")))
            env = dict(os.environ)
            env.update({
                "RUST_BACKTRACE": "0",
                "CARGO_NET_OFFLINE": "true",
                "LD_LIBRARY_PATH": nightly_lib() + ":" + env.get("LD_LIBRARY_PATH", ""),
                "RUSTFLAGS": RUSTFLAGS,
                "RUSTC_WORKSPACE_WRAPPER": DRIVER,
                "MIRFACTS_CRATE": spec["crate"],
                "MIRFACTS_OUT": out + ".new",
                "CARGO_TARGET_DIR": tgt,
            })
            env.pop("RUSTC_WRAPPER", None)
            env.update(spec.get("env", {}))
            if os.path.exists(out + ".new"):
                os.remove(out + ".new")
            cmd = ["cargo", "+nightly", "check", "--offline"] + spec["args"]
            r = subprocess.run(cmd, cwd=os.path.join(base, spec["dir"]), env=env, capture_output=True, text=True)
            if r.returncode != 0 or not os.path.exists(out + ".new"):
                sys.stderr.write("extract %s failed (rc=%s)\n%s\n" % (cfg, r.returncode, r.stderr[-4000:]))
                raise SystemExit("EXTRACTION-FAILED config=%s: /repo does not type-check in this configuration "
                                 "(or the driver did not run)" % cfg)
            with open(out + ".new") as fh:
                d = json.load(fh)
            if d.get("crate") != spec["crate"]:
                raise SystemExit("fact file names crate %r, expected %r" % (d.get("crate"), spec["crate"]))
            os.rename(out + ".new", out)
            if not quiet:
                sys.stderr.write("extracted %s in %.1fs\n" % (cfg, time.time() - t0))
        finally:
            shutil.rmtree(tmp, ignore_errors=True)
        return out
    finally:
        fcntl.flock(lockf, fcntl.LOCK_UN)
        lockf.close()


def extract_many(cfgs, quiet=True):
    """Extract several configurations in parallel (independent processes)."""
    todo = [c for c in cfgs if not os.path.exists(os.path.join(cache_dir(), c + ".json"))]
    if todo:
        procs = []
        for c in todo:
            procs.append((c, subprocess.Popen([sys.executable, os.path.abspath(__file__), c],
                                              stdout=subprocess.PIPE, stderr=subprocess.PIPE, text=True)))
        failed = []
        for c, p in procs:
            so, se = p.communicate()
            if p.returncode != 0:
                failed.append((c, se[-3000:]))
        if failed:
            for c, se in failed:
                sys.stderr.write("--- %s ---\n%s\n" % (c, se))
            raise SystemExit("EXTRACTION-FAILED configs=%s" % ",".join(c for c, _ in failed))
    return {c: os.path.join(cache_dir(), c + ".json") for c in cfgs}


if __name__ == "__main__":
    for c in sys.argv[1:]:
        print(extract(c, quiet=False))
