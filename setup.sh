#!/bin/bash
# MANIFEST.setup_cmd: build the framework from files on disk only (offline).
set -e
cd "$(dirname "$0")"
export CARGO_NET_OFFLINE=true RUST_BACKTRACE=0
(cd engines/mirfacts && cargo +nightly build --release --offline 2>&1 | tail -2)
test -x engines/mirfacts/target/release/mirfacts
echo "setup ok"
